(* C05 -- only schema-valid payloads reach handlers; violations get the right code.
   (The reply-receiving half, C05_caller_guard, is in the second part of this file, over the
   outbound call model.) *)
From Coq Require Import List String Bool ZArith.
From OV.Model Require Import Json Names Schema SchemaProofs Validate Frame Classes Dispatch DispatchProofs Endpoint EndpointProofs Shipped ShippedProofs.
From OV.Gen Require Import Errors.
Import ListNotations.
Local Open Scope string_scope.

(* a handler invocation implies: the route opted out, or the payload is declaratively valid
   (Draft-04 reading [Valid]) against the request schema of exactly this version and action;
   the handler invoked is the one registered for this action and gets the snake_case payload *)
Theorem C05_handler_guard :
  forall c id action payload n kw u,
    In (EvHandler n kw u) (handle_call shipped actions_of c id action payload) ->
    exists a r h p,
      lookup_route c action = Some (a, r) /\ r_on r = Some h /\ n = h_name h /\ kw = c2s_keys p /\
      ((eff_skip r = true /\ p = payload) \/
       (eff_skip r = false /\
        exists s, assoc (schema_name (c_ver c) MCall a) (shipped (c_ver c)) = Some s /\
                  Valid (mode_of (c_ver c) MCall a) (mode_of (c_ver c) MCall a) s
                        (payload_in_mode (c_ver c) MCall a payload) /\
                  p = payload_in_mode (c_ver c) MCall a payload)).
Proof.
  intros c id action payload n kw u Hin.
  destruct (handle_call_contract shipped actions_of c id action payload) as [[Hnone _]|H].
  - exfalso. assert (Hf : In (EvHandler n kw u) (filter is_handler (handle_call shipped actions_of c id action payload))).
    { apply filter_In. split; [exact Hin | reflexivity]. }
    rewrite Hnone in Hf. contradiction.
  - destruct H as [a [r [h [p [rest [Hl [Hon [Hacc [Hevs [Hrest _]]]]]]]]]].
    rewrite Hevs in Hin. destruct Hin as [Heq|Hin].
    + injection Heq as <- <- <-. exists a, r, h, p. repeat split; try assumption.
      destruct Hacc as [[Hs Hp]|[Hs Hv]]; [left; split; assumption|].
      right. split; [exact Hs|]. apply validate_accept_iff in Hv. exact Hv.
    + exfalso. assert (Hf : In (EvHandler n kw u) (filter is_handler rest)).
      { apply filter_In. split; [exact Hin | reflexivity]. }
      rewrite Hrest in Hf. contradiction.
Qed.
Print Assumptions C05_handler_guard.

(* a violating CALL on a validating route: no handler runs, the only event is one CALLERROR
   whose code is code_of some violated constraint kind *)
Theorem C05_violation_answered :
  forall c id action payload a r codes,
    lookup_route c action = Some (a, r) -> eff_skip r = false ->
    validate shipped (c_ver c) MCall a payload = VReject codes false ->
    handle_call shipped actions_of c id action payload = [EvError id (map code_name codes) None]
    /\ exists s, assoc (schema_name (c_ver c) MCall a) (shipped (c_ver c)) = Some s /\
         forall cd, In cd codes ->
           exists k, In k (violations (mode_of (c_ver c) MCall a) (mode_of (c_ver c) MCall a) s
                                      (payload_in_mode (c_ver c) MCall a payload))
                     /\ cd = code_of k.
Proof.
  intros c id action payload a r codes Hl Hs Hv. split.
  - exact (invalid_call_rejected shipped actions_of c id action payload a r codes Hl Hs Hv).
  - destruct (validate_reject_codes shipped _ _ _ _ _ _ Hv) as [s [Hs' [_ Hc]]]. exists s. split; assumption.
Qed.
Print Assumptions C05_violation_answered.

(* the mapping of the property text *)
Theorem C05_code_table :
  code_of KType = CTypeConstraintViolation /\ code_of KMaxLength = CTypeConstraintViolation /\
  code_of KRequired = CProtocolError /\
  code_of KAdditional = CFormatViolation /\ code_of KEnum = CFormatViolation /\
  code_of KMinimum = CFormatViolation /\ code_of KMaximum = CFormatViolation /\
  code_of KMinItems = CFormatViolation /\ code_of KMaxItems = CFormatViolation /\
  code_of KMultipleOf = CFormatViolation /\ code_of KOutOfRange = CFormatViolation.
Proof. repeat split. Qed.
Print Assumptions C05_code_table.

(* the evaluator is the declarative Draft-04 reading, for every schema and instance *)
Theorem C05_independent_oracle :
  forall sm pm s j, violations sm pm s j = [] <-> Valid sm pm s j.
Proof. exact violations_sound_complete. Qed.
Print Assumptions C05_independent_oracle.

(* the reply-receiving half: call() hands back a result only for a CALLRESULT payload that is valid
   against the response schema of the action it SENT (whatever a surplus 4th element of the frame
   says), unless this very call skipped validation; otherwise it raises the mapped OCPP error *)
Theorem C05_caller_guard :
  forall c cl id payload a4 kw,
    complete shipped errors results_of c cl (CallResult id payload a4) = OResult kw ->
    (cl_skip cl = true /\ kw = c2s_keys payload) \/
    (cl_skip cl = false /\
     exists s, assoc (schema_name (c_ver c) MCallResult (cl_action cl)) (shipped (c_ver c)) = Some s /\
               Valid (mode_of (c_ver c) MCallResult (cl_action cl)) (mode_of (c_ver c) MCallResult (cl_action cl)) s
                     (payload_in_mode (c_ver c) MCallResult (cl_action cl) payload) /\
               kw = c2s_keys (payload_in_mode (c_ver c) MCallResult (cl_action cl) payload)).
Proof.
  intros c cl id payload a4 kw H. unfold complete in H. unfold ver in H.
  destruct (cl_skip cl) eqn:Hs.
  - left. destruct (construct results_of c (cl_action cl) (c2s_keys payload)); [|discriminate].
    injection H as <-. split; reflexivity.
  - right. split; [reflexivity|].
    destruct (validate shipped (c_ver c) MCallResult (cl_action cl) payload) as [p|codes mc| |] eqn:Ev;
      try (destruct mc); try discriminate.
    destruct (construct results_of c (cl_action cl) (c2s_keys p)); [|discriminate]. injection H as <-.
    apply (validate_accept_iff shipped) in Ev. destruct Ev as [s [Hs' [HV ->]]]. exists s. repeat split; assumption.
Qed.
Print Assumptions C05_caller_guard.

Theorem C05_caller_violation :
  forall c cl id payload a4 codes,
    cl_skip cl = false ->
    validate shipped (c_ver c) MCallResult (cl_action cl) payload = VReject codes false ->
    complete shipped errors results_of c cl (CallResult id payload a4) = OInvalid codes.
Proof. intros c cl id payload a4 codes Hs Hv. unfold complete, ver. rewrite Hs, Hv. reflexivity. Qed.
Print Assumptions C05_caller_violation.
