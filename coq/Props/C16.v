(* C16 -- skipping validation is scoped to the route (inbound half; the per-call half is in the
   outbound model, see C16_call_scope below once Endpoint is imported). *)
From Coq Require Import List String Bool ZArith.
From OV.Model Require Import Json Names Schema Validate Frame Classes Dispatch DispatchProofs Endpoint EndpointProofs Shipped ShippedProofs.
From OV.Gen Require Import Errors.
Import ListNotations.

(* two configurations of the same version that agree on the route of the CALL's action process
   the CALL identically: no other route's, class's or endpoint's flag can matter *)
Theorem C16_route_scope :
  forall c c' id action payload,
    c_ver c = c_ver c' -> lookup_route c action = lookup_route c' action ->
    handle_call shipped actions_of c id action payload = handle_call shipped actions_of c' id action payload.
Proof. exact (route_scope shipped actions_of). Qed.
Print Assumptions C16_route_scope.

(* with validation skipped the payload is delivered, and the result written, unchanged:
   for every payload and every returned object, valid or not *)
Theorem C16_unchanged :
  forall c id action payload a r h obj,
    lookup_route c action = Some (a, r) -> r_on r = Some h -> r_skip r = true ->
    binds (h_sig h) (c2s_keys payload) = true ->
    h_run h (c2s_keys payload) (uid_for (h_sig h) id) = HRet obj ->
    handle_call shipped actions_of c id action payload =
    EvHandler (h_name h) (c2s_keys payload) (uid_for (h_sig h) id)
    :: EvResult id (encode (s2c_keys (remove_nones obj)))
    :: after_events r id (c2s_keys payload).
Proof. exact (skipped_route_unchanged shipped actions_of). Qed.
Print Assumptions C16_unchanged.

(* the per-call flag: whether a request is validated depends on the flag given to THAT call only --
   not on the routes of the endpoint (the configuration c), not on any other caller in the state *)
Theorem C16_call_scope_request :
  forall c c' st st' k uid action snake suppress send_ok codes,
    c_ver c = c_ver c' ->
    validate shipped (c_ver c) MCall action (remove_nones (s2c_keys snake)) = VReject codes false ->
    log (start_with shipped errors results_of 120 c st k uid action snake false suppress send_ok) = log st /\
    log (start_with shipped errors results_of 120 c' st' k uid action snake false suppress send_ok) = log st'.
Proof.
  intros c c' st st' k uid action snake suppress send_ok codes Hv Hr. split.
  - apply (call_guard_reject shipped errors results_of 120 c st k uid action snake suppress send_ok codes Hr).
  - assert (Hr' : validate shipped (ver c') MCall action (remove_nones (s2c_keys snake)) = VReject codes false)
      by (unfold ver; rewrite <- Hv; exact Hr).
    apply (call_guard_reject shipped errors results_of 120 c' st' k uid action snake suppress send_ok codes Hr').
Qed.
Print Assumptions C16_call_scope_request.

(* and the reply of a call is validated iff that call did not skip: the outcome is a function of the
   caller's own record and the reply *)
Theorem C16_call_scope_reply :
  forall c cl id payload a4 codes,
    cl_skip cl = false ->
    validate shipped (c_ver c) MCallResult (cl_action cl) payload = VReject codes false ->
    complete shipped errors results_of c cl (CallResult id payload a4) = OInvalid codes.
Proof. intros c cl id payload a4 codes Hs Hv. unfold complete, ver. rewrite Hs, Hv. reflexivity. Qed.
Print Assumptions C16_call_scope_reply.
