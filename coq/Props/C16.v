(* C16 -- skipping validation is scoped to the route (inbound half; the per-call half is in the
   outbound model, see C16_call_scope below once Endpoint is imported). *)
From Coq Require Import List String Bool ZArith.
From OV.Model Require Import Json Names Schema Validate Frame Dispatch DispatchProofs Shipped ShippedProofs.
Import ListNotations.

(* two configurations of the same version that agree on the route of the CALL's action process
   the CALL identically: no other route's, class's or endpoint's flag can matter *)
Theorem C16_route_scope :
  forall c c' id action payload,
    c_ver c = c_ver c' -> lookup_route c action = lookup_route c' action ->
    handle_call shipped actions_of c id action payload = handle_call shipped actions_of c' id action payload.
Proof. exact (route_scope shipped actions_of). Qed.
Print Assumptions C16_route_scope.

(* with validation skipped the payload is delivered, and the result written, unchanged:
   for every payload and every returned object, valid or not *)
Theorem C16_unchanged :
  forall c id action payload a r h obj,
    lookup_route c action = Some (a, r) -> r_on r = Some h -> r_skip r = true ->
    binds (h_sig h) (c2s_keys payload) = true ->
    h_run h (c2s_keys payload) (uid_for (h_sig h) id) = HRet obj ->
    handle_call shipped actions_of c id action payload =
    EvHandler (h_name h) (c2s_keys payload) (uid_for (h_sig h) id)
    :: EvResult id (encode (s2c_keys (remove_nones obj)))
    :: after_events r id (c2s_keys payload).
Proof. exact (skipped_route_unchanged shipped actions_of). Qed.
Print Assumptions C16_unchanged.
