(* C11 -- message classes agree with the schemas they stand for.  All tables are regenerated from
   the working tree on every run; the theorems are re-checked against them (finite, complete
   domain: every request / response class of both versions, every data type reachable by
   annotation, every 1.6 data type by structural fit). *)
From Coq Require Import List String Bool.
From OV.Model Require Import Json Names Schema Classes Vocab ClassCheck ClassCheckProofs MaterialiseProofs.
From OV.Gen Require Import Schemas16 Schemas201 Classes16 Classes201.
Import ListNotations.
Local Open Scope string_scope.

(* the walk finds nothing: field sets, mandatory/omittable, shapes (list / object / data type /
   string / integer / number / boolean, through lists, unions and nested data types) all agree *)
Theorem C11_walk_clean :
  table_problems datatypes16 "" schemas16 calls16 = [] /\
  table_problems datatypes16 "Response" schemas16 results16 = [] /\
  table_problems datatypes201 "Request" schemas201 calls201 = [] /\
  table_problems datatypes201 "Response" schemas201 results201 = [] /\
  unplaced datatypes16 (object_nodes schemas16) = [] /\
  unplaced datatypes201 (object_nodes schemas201) = [].
Proof. vm_compute. repeat split; reflexivity. Qed.
Print Assumptions C11_walk_clean.

(* read as statements: for every action the class has exactly the schema's top-level properties,
   what must be supplied is required, what may be omitted is optional *)
Theorem C11_calls16 :
  forall c, In c calls16 -> exists s, assoc (c_name c ++ "") schemas16 = Some s /\ ClassAgrees c s
                                      /\ class_problems datatypes16 c s = [].
Proof. apply table_problems_nil. apply C11_walk_clean. Qed.
Theorem C11_results16 :
  forall c, In c results16 -> exists s, assoc (c_name c ++ "Response") schemas16 = Some s /\ ClassAgrees c s
                                        /\ class_problems datatypes16 c s = [].
Proof. apply table_problems_nil. apply C11_walk_clean. Qed.
Theorem C11_calls201 :
  forall c, In c calls201 -> exists s, assoc (c_name c ++ "Request") schemas201 = Some s /\ ClassAgrees c s
                                       /\ class_problems datatypes201 c s = [].
Proof. apply table_problems_nil. apply C11_walk_clean. Qed.
Theorem C11_results201 :
  forall c, In c results201 -> exists s, assoc (c_name c ++ "Response") schemas201 = Some s /\ ClassAgrees c s
                                         /\ class_problems datatypes201 c s = [].
Proof. apply table_problems_nil. apply C11_walk_clean. Qed.
Print Assumptions C11_calls16.
Print Assumptions C11_results16.
Print Assumptions C11_calls201.
Print Assumptions C11_results201.

(* the field names of the message classes (the classes the library itself instantiates from
   snake_case keywords) survive the round trip too, so a schema-valid payload's keys are fields.
   (Not so for two data-type fields, v201 IdTokenInfoType.language_1 / language_2: the wire name
   language1 maps back to language1.  The library never builds data types from keywords and the
   property does not ask for it; recorded in DESIGN.md as an observation.) *)
Theorem C11_field_names_roundtrip :
  forallb (fun c => forallb (fun f => String.eqb (c2s (s2c (f_name f))) (f_name f)) (c_fields c))
          (calls16 ++ results16 ++ calls201 ++ results201) = true.
Proof. vm_compute. reflexivity. Qed.
Print Assumptions C11_field_names_roundtrip.

(* Hence: any schema-valid reply can be materialised as its result class -- for every result class
   of both versions, every payload object (pairwise different keys) that is declaratively valid
   against the response schema yields keyword arguments the class constructor accepts: no
   unexpected keyword, no missing mandatory one.  Chains C04 (Valid), C10 (names), C11 (fields). *)
Theorem C11_materialises16 :
  forall c, In c results16 ->
    exists s, assoc (c_name c ++ "Response") schemas16 = Some s /\
              forall sm pm o, NoDup (keys o) -> Valid sm pm s (JObj o) -> constructible c (kwargs_keys o).
Proof. apply (table_materialises datatypes16); [apply C11_walk_clean | vm_compute; reflexivity]. Qed.
Theorem C11_materialises201 :
  forall c, In c results201 ->
    exists s, assoc (c_name c ++ "Response") schemas201 = Some s /\
              forall sm pm o, NoDup (keys o) -> Valid sm pm s (JObj o) -> constructible c (kwargs_keys o).
Proof. apply (table_materialises datatypes201); [apply C11_walk_clean | vm_compute; reflexivity]. Qed.
Print Assumptions C11_materialises16.
Print Assumptions C11_materialises201.
