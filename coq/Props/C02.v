(* C02 -- call() completes only with the reply bearing its own id, or times out on time.
   Over every finite sequence of operations on one endpoint (callers starting, inbound frames of
   every kind, clock advances, cancellations, failing writes), every id generator [fresh], every
   positive response timeout, every route configuration.
   Safety and liveness (C02_times_out_on_time) are theorems about the model.  PARTIAL: (i) the real
   code reads time.time() for the deadline and the loop clock for the timer: one clock in the model;
   (ii) uuid4 freshness is outside the model (the harness probes it); (iii) that asyncio's Queue /
   wait_for are the FIFO queue and exact timers of the model is observed, not proved. *)
From Coq Require Import List String Bool ZArith Lia.
From OV.Model Require Import Json Schema Validate Frame Classes Dispatch Endpoint EndpointProofs EndpointProgress Shipped.
From OV.Gen Require Import Errors.
Import ListNotations.
Local Open Scope string_scope.
Local Open Scope Z_scope.
Local Open Scope list_scope.

Section C02.
  Variable fresh : nat -> string.
  Variable timeout : Z.
  Variable c : cfg.
  Hypothesis timeout_pos : 0 < timeout.

  Definition run_ops := run shipped actions_of errors results_of fresh timeout c.

  (* a reply is handed to caller k only if its id equals (Python ==) the id of k's CALL ... *)
  Theorem C02_only_own_reply :
    forall ops t k m,
      In (t, Delivered k m) (log (run_ops ops)) ->
      exists cl, get_caller k (callers (run_ops ops)) = Some cl /\ py_eqb (msg_id m) (cl_uid cl) = true.
  Proof. intros ops. exact (inv_deliv _ _ _ _ _ _ (Inv_run shipped actions_of errors results_of fresh timeout c timeout_pos ops)). Qed.

  (* ... and only if that reply really arrived on the connection *)
  Theorem C02_only_arrived_replies :
    forall ops t k m, In (t, Delivered k m) (log (run_ops ops)) -> In m (arrived ops).
  Proof. intros ops t k m H. exact (proj2 (Arr_run shipped actions_of errors results_of fresh timeout c ops) t k m H). Qed.

  (* a result / None / OCPP error / unknown-code outcome comes from exactly such a delivery, and is
     what [complete] makes of that reply (result type of the action, suppression, to_exception) *)
  Theorem C02_outcome_from_own_reply :
    forall ops k cl o t,
      get_caller k (callers (run_ops ops)) = Some cl -> cl_phase cl = PDone o t ->
      reply_outcome o = true ->
      exists m, In (t, Delivered k m) (log (run_ops ops)) /\
                o = complete shipped errors results_of c cl m.
  Proof. intros ops. exact (inv_done _ _ _ _ _ _ (Inv_run shipped actions_of errors results_of fresh timeout c timeout_pos ops)). Qed.

  (* a timeout is raised exactly [timeout] after the CALL was written, whatever arrived meanwhile *)
  Theorem C02_deadline :
    forall ops k cl t,
      get_caller k (callers (run_ops ops)) = Some cl -> cl_phase cl = PDone OTimeout t ->
      exists f, In (t - timeout, CallWritten k f) (log (run_ops ops)).
  Proof. intros ops. exact (inv_tmo _ _ _ _ _ _ (Inv_run shipped actions_of errors results_of fresh timeout c timeout_pos ops)). Qed.

  (* a caller still waiting has its deadline ahead of the clock, fixed when its CALL was written *)
  Theorem C02_waiting_deadline :
    forall ops k cl d,
      get_caller k (callers (run_ops ops)) = Some cl -> cl_phase cl = PWaiting d ->
      now (run_ops ops) < d /\ exists f, In (d - timeout, CallWritten k f) (log (run_ops ops)).
  Proof.
    intros ops k cl d H1 H2.
    destruct (inv_wait _ _ _ _ _ _ (Inv_run shipped actions_of errors results_of fresh timeout c timeout_pos ops) k cl d H1 H2) as [_ H].
    exact H.
  Qed.

  (* liveness: from any reachable state in which request k waits with deadline d, any further traffic that
     is not a reply bearing its id, not its cancellation, and does not reach d -- other callers, stale /
     unknown / duplicate replies in any number, inbound CALLs, shorter clock advances -- leaves it waiting
     with the same deadline; and the clock reaching d ends it with a timeout at exactly d *)
  Theorem C02_times_out_on_time :
    forall ops mid k uid d dt,
      is_waiting (run_ops ops) k uid d ->
      all_harmless shipped actions_of errors results_of fresh timeout c (run_ops ops) k uid d mid ->
      let st' := fold_left (step shipped actions_of errors results_of fresh timeout c) mid (run_ops ops) in
      0 < dt -> d <= now st' + dt ->
      is_waiting st' k uid d /\ is_done (step shipped actions_of errors results_of fresh timeout c st' (OTick dt)) k OTimeout d.
  Proof.
    intros ops mid k uid d dt Hw Hh.
    destruct (reachable_invariants shipped actions_of errors results_of fresh timeout c timeout_pos ops) as [HI [HW HQ]].
    exact (times_out_on_time shipped actions_of errors results_of fresh timeout c timeout_pos mid (run_ops ops) k uid d dt HI HW HQ Hw Hh).
  Qed.
End C02.
Print Assumptions C02_times_out_on_time.
Print Assumptions C02_only_own_reply.
Print Assumptions C02_only_arrived_replies.
Print Assumptions C02_outcome_from_own_reply.
Print Assumptions C02_deadline.
Print Assumptions C02_waiting_deadline.

(* non-vacuity: a stale reply is discarded, the matching one delivered; another caller times out *)
Example C02_example :
  let c := mkCfg V16 [] in
  let ops := [OStart 0 None "Heartbeat" (JObj []) false true true;
              OInbound (Loaded (JArr [JNum (NInt 3); JStr "stale"; JObj []]));
              OInbound (Loaded (JArr [JNum (NInt 3); JStr "gen-0"; JObj [("currentTime", JStr "t")]]));
              OStart 1 None "Heartbeat" (JObj []) false true true;
              OTick 120] in
  map (fun kc => cl_phase (snd kc)) (callers (run shipped actions_of errors results_of gen_id 120 c ops))
  = [PDone (OResult (JObj [("current_time", JStr "t")])) 0; PDone OTimeout 120].
Proof. vm_compute. reflexivity. Qed.
