(* C15 -- an endpoint's route map is exactly its own decorated methods.
   [resolve] is attribute lookup along the inheritance chain; the theorems mention the rest of
   the process history (other classes, their order, name reuse) only through it: the map cannot
   depend on anything else.  Hypothesis "unique": for the action at most one name of the
   instance's namespace is decorated for it (otherwise the property does not say which wins). *)
From Coq Require Import List String Bool.
From OV.Model Require Import Json Routing RoutingProofs.
Import ListNotations.
Local Open Scope string_scope.

Theorem C15_on_is_resolved :
  forall h cname a n o s,
    resolve (depth_fuel h) h cname n = Some (o, AOn a s) ->
    (forall n' o' s', resolve (depth_fuel h) h cname n' = Some (o', AOn a s') -> n' = n) ->
    e_on (route_entry h cname a) = Some (o, n, s).
Proof. exact route_on_is_resolved. Qed.
Print Assumptions C15_on_is_resolved.

(* no decorated method resolves for the action (never decorated, or overridden by an undecorated
   method, a plain attribute or a property): no route *)
Theorem C15_on_absent :
  forall h cname a,
    (forall n o s, resolve (depth_fuel h) h cname n <> Some (o, AOn a s)) ->
    e_on (route_entry h cname a) = None.
Proof. exact route_on_absent. Qed.
Print Assumptions C15_on_absent.

Theorem C15_after_is_resolved :
  forall h cname a n o,
    resolve (depth_fuel h) h cname n = Some (o, AAfter a) ->
    (forall n' o', resolve (depth_fuel h) h cname n' = Some (o', AAfter a) -> n' = n) ->
    e_after (route_entry h cname a) = Some (o, n).
Proof. exact route_after_is_resolved. Qed.
Print Assumptions C15_after_is_resolved.

Theorem C15_after_absent :
  forall h cname a,
    (forall n o, resolve (depth_fuel h) h cname n <> Some (o, AAfter a)) ->
    e_after (route_entry h cname a) = None.
Proof. exact route_after_absent. Qed.
Print Assumptions C15_after_absent.

(* building the map evaluates no property *)
Theorem C15_no_getters : forall h cname, getters_evaluated h cname = [].
Proof. exact no_getters. Qed.
Print Assumptions C15_no_getters.

(* non-vacuity: inherited handler, overriding handler with its own flag, undecorated override
   removing a route, an unrelated class defined first that reuses a name as a property *)
Example C15_example :
  let h := [mkRC "Unrelated" None [("on_boot", AProperty); ("zzz", AOn "Heartbeat" false)];
            mkRC "Base" None [("on_boot", AOn "BootNotification" false); ("on_hb", AOn "Heartbeat" true);
                              ("after_hb", AAfter "Heartbeat")];
            mkRC "Mid" (Some "Base") [("on_boot", AOn "BootNotification" true)];
            mkRC "Leaf" (Some "Mid") [("on_hb", APlain)]] in
  route_entry h "Leaf" "BootNotification" = mkEntry (Some ("Mid", "on_boot", true)) None /\
  route_entry h "Leaf" "Heartbeat" = mkEntry None (Some ("Base", "after_hb")) /\
  route_entry h "Mid" "Heartbeat" = mkEntry (Some ("Base", "on_hb", true)) (Some ("Base", "after_hb")) /\
  route_entry h "Unrelated" "BootNotification" = no_entry.
Proof. vm_compute. repeat split; reflexivity. Qed.
