(* C15 -- an endpoint's route map is exactly its own decorated methods.
   [resolve] is attribute lookup along the inheritance chain; the theorems mention the rest of
   the process history (other classes, their order, name reuse) only through it: the map cannot
   depend on anything else.  Hypothesis "unique": for the action at most one name of the
   instance's namespace is decorated for it (otherwise the property does not say which wins). *)
From Coq Require Import List String Bool.
From OV.Model Require Import Json Routing RoutingProofs.
Import ListNotations.
Local Open Scope string_scope.

(* [handles h cname a n o s]: attribute lookup of the name n on an instance of cname finds, in class o, a method
   that on(a, skip_schema_validation=s) registered -- alone (AOn) or stacked with after() (ABoth);
   [follows h cname a n o]: likewise for after(a) (AAfter or ABoth). *)
Theorem C15_on_is_resolved :
  forall h cname a n o s,
    handles h cname a n o s ->
    (forall n' o' s', handles h cname a n' o' s' -> n' = n) ->
    e_on (route_entry h cname a) = Some (o, n, s).
Proof. exact route_on_handles. Qed.
Print Assumptions C15_on_is_resolved.

(* no decorated method resolves for the action (never decorated, or overridden by an undecorated
   method, a plain attribute or a property): no route *)
Theorem C15_on_absent :
  forall h cname a,
    (forall n o s, ~ handles h cname a n o s) ->
    e_on (route_entry h cname a) = None.
Proof. exact route_on_none. Qed.
Print Assumptions C15_on_absent.

Theorem C15_after_is_resolved :
  forall h cname a n o,
    follows h cname a n o ->
    (forall n' o', follows h cname a n' o' -> n' = n) ->
    e_after (route_entry h cname a) = Some (o, n).
Proof. exact route_after_follows. Qed.
Print Assumptions C15_after_is_resolved.

Theorem C15_after_absent :
  forall h cname a,
    (forall n o, ~ follows h cname a n o) ->
    e_after (route_entry h cname a) = None.
Proof. exact route_after_none. Qed.
Print Assumptions C15_after_absent.

(* the two predicates say what they are meant to say *)
Theorem C15_handles_spelled_out :
  forall h cname a n o s,
    handles h cname a n o s <->
    (resolve (depth_fuel h) h cname n = Some (o, AOn a s) \/
     exists a2, resolve (depth_fuel h) h cname n = Some (o, ABoth a s a2)).
Proof. exact handles_iff. Qed.
Print Assumptions C15_handles_spelled_out.

Theorem C15_follows_spelled_out :
  forall h cname a n o,
    follows h cname a n o <->
    (resolve (depth_fuel h) h cname n = Some (o, AAfter a) \/
     exists a1 s, resolve (depth_fuel h) h cname n = Some (o, ABoth a1 s a)).
Proof. exact follows_iff. Qed.
Print Assumptions C15_follows_spelled_out.

(* building the map evaluates no property *)
Theorem C15_no_getters : forall h cname, getters_evaluated h cname = [].
Proof. exact no_getters. Qed.
Print Assumptions C15_no_getters.

(* non-vacuity: inherited handler, overriding handler with its own flag, undecorated override
   removing a route, an unrelated class defined first that reuses a name as a property *)
Example C15_example :
  let h := [mkRC "Unrelated" None [("on_boot", AProperty); ("zzz", AOn "Heartbeat" false)];
            mkRC "Base" None [("on_boot", AOn "BootNotification" false); ("on_hb", AOn "Heartbeat" true);
                              ("after_hb", AAfter "Heartbeat")];
            mkRC "Mid" (Some "Base") [("on_boot", AOn "BootNotification" true)];
            mkRC "Leaf" (Some "Mid") [("on_hb", APlain)]] in
  route_entry h "Leaf" "BootNotification" = mkEntry (Some ("Mid", "on_boot", true)) None /\
  route_entry h "Leaf" "Heartbeat" = mkEntry None (Some ("Base", "after_hb")) /\
  route_entry h "Mid" "Heartbeat" = mkEntry (Some ("Base", "on_hb", true)) (Some ("Base", "after_hb")) /\
  route_entry h "Unrelated" "BootNotification" = no_entry.
Proof. vm_compute. repeat split; reflexivity. Qed.

(* one method carrying both decorators (either stacking order): handler of its on()-action with that flag, hook of
   its after()-action; inherited; and replaced by a subclass's plain override *)
Example C15_example_stacked :
  let h := [mkRC "Base" None [("both", ABoth "Reset" true "Heartbeat"); ("other", AOn "ClearCache" false)];
            mkRC "Child" (Some "Base") [];
            mkRC "Plain" (Some "Base") [("both", APlain)]] in
  route_entry h "Child" "Reset" = mkEntry (Some ("Base", "both", true)) None /\
  route_entry h "Child" "Heartbeat" = mkEntry None (Some ("Base", "both")) /\
  route_entry h "Child" "ClearCache" = mkEntry (Some ("Base", "other", false)) None /\
  route_entry h "Plain" "Reset" = no_entry /\ route_entry h "Plain" "Heartbeat" = no_entry.
Proof. vm_compute. repeat split; reflexivity. Qed.
