(* C09 -- OCPP errors survive the wire: class, description and details round-trip. *)
From Coq Require Import List String Bool ZArith.
From OV.Model Require Import Json Names Schema Validate Frame Classes Dispatch DispatchProofs Endpoint Net NetProofs Shipped Vocab VocabProofs.
From OV.Gen Require Import Errors.
Import ListNotations.
Local Open Scope string_scope.

(* every OCPP error class has its own wire code (table regenerated from ocpp/exceptions.py) *)
Theorem C09_codes_distinct : NoDup (codes errors).
Proof. apply nodupb_NoDup. vm_compute. reflexivity. Qed.
Print Assumptions C09_codes_distinct.

(* every OCPP error class of the module (found without __subclasses__) is one to_exception can
   produce: with distinct codes, its code leads back to exactly that class *)
Theorem C09_all_classes_reachable :
  forall e, In e all_error_classes -> In e errors.
Proof.
  assert (H : forallb (fun e => existsb (fun e' => String.eqb (fst (fst e)) (fst (fst e')) && String.eqb (snd (fst e)) (snd (fst e'))
                                                    && String.eqb (snd e) (snd e')) errors) all_error_classes = true)
    by (vm_compute; reflexivity).
  intros e He. rewrite forallb_forall in H. specialize (H e He). apply existsb_exists in H.
  destruct H as [[[a b] c0] [Hin Heq]]. destruct e as [[a' b'] c']. simpl in Heq.
  apply andb_true_iff in Heq. destruct Heq as [Heq H3]. apply andb_true_iff in Heq. destruct Heq as [H1 H2].
  apply String.eqb_eq in H1, H2, H3. subst. exact Hin.
Qed.
Print Assumptions C09_all_classes_reachable.

(* a handler raising an OCPP error puts exactly its code, description and details on the wire ... *)
Theorem C09_raised_on_wire :
  forall c id action payload a r h p code d x,
    lookup_route c action = Some (a, r) -> r_on r = Some h ->
    (if eff_skip r then VAccept payload else validate shipped (c_ver c) MCall a payload) = VAccept p ->
    binds (h_sig h) (c2s_keys p) = true ->
    h_run h (c2s_keys p) (uid_for (h_sig h) id) = HRaiseOCPP code d x ->
    handle_call shipped actions_of c id action payload =
    [EvHandler (h_name h) (c2s_keys p) (uid_for (h_sig h) id); EvError id [code] (Some (d, x))].
Proof. exact (handler_raises_ocpp shipped actions_of). Qed.
Print Assumptions C09_raised_on_wire.

(* ... and the caller turns that CALLERROR back into the same class, description and details
   (suppression off), or into None (suppression on) *)
Theorem C09_transport :
  forall c cl id cls code dflt d x,
    In (cls, code, dflt) errors ->
    complete shipped errors results_of c cl (CallError id (JStr code) (JStr d) (Some x)) =
    if cl_suppress cl then ONone
    else ORaise cls (JStr d) (match x with JNull => JObj [] | y => y end).
Proof.
  intros c cl id cls code dflt d x Hin. unfold complete. destruct (cl_suppress cl); [reflexivity|].
  apply (to_exception_known errors cls code dflt d x C09_codes_distinct Hin).
Qed.
Print Assumptions C09_transport.

(* any non-OCPP exception in a handler: the frame is a fixed InternalError frame that is the same for
   every exception (the model of the handler outcome carries no text: non-interference by typing) *)
Theorem C09_internal :
  forall c id action payload a r h p,
    lookup_route c action = Some (a, r) -> r_on r = Some h ->
    (if eff_skip r then VAccept payload else validate shipped (c_ver c) MCall a payload) = VAccept p ->
    binds (h_sig h) (c2s_keys p) = true ->
    h_run h (c2s_keys p) (uid_for (h_sig h) id) = HRaiseOther ->
    handle_call shipped actions_of c id action payload =
    [EvHandler (h_name h) (c2s_keys p) (uid_for (h_sig h) id);
     EvError id ["InternalError"] (Some ("An unexpected error occurred.", JObj []))]
    /\ exists cls dflt, In (cls, "InternalError", dflt) errors.
Proof.
  intros c id action payload a r h p H1 H2 H3 H4 H5. split.
  - exact (handler_raises_other shipped actions_of c id action payload a r h p H1 H2 H3 H4 H5).
  - exists "InternalError". eexists. vm_compute. right. right. left. reflexivity.
Qed.
Print Assumptions C09_internal.

(* a code the library does not define is reported as unknown, never as some OCPP error class *)
Theorem C09_unknown :
  forall code d x,
    (match code with JStr cd => ~ In cd (codes errors) | _ => True end) ->
    to_exception errors code d x = OUnknownCode.
Proof. exact (to_exception_unknown errors). Qed.
Print Assumptions C09_unknown.
