(* C06 -- end-to-end payload transparency between two endpoints (first part; see NetProofs). *)
From Coq Require Import List String Bool ZArith.
From OV.Model Require Import Json Names Schema Validate Frame Classes Dispatch Endpoint Net NetProofs Shipped.
Import ListNotations.

(* what is written contains no null, whatever object the caller or the handler built *)
Theorem C06_no_null_obj : forall l, no_null (remove_nones (JObj l)) = true.
Proof. exact no_null_remove_nones_obj. Qed.
Print Assumptions C06_no_null_obj.

(* remove_nones drops nulls only: every other value, falsy ones included, stays *)
Theorem C06_falsy_kept :
  remove_nones (JObj [("a", JNum (NInt 0)); ("b", JStr ""); ("c", JBool false); ("d", JArr []); ("e", JNull);
                      ("f", JObj [("g", JNull); ("h", JNum (NInt 0))])]%string)
  = JObj [("a", JNum (NInt 0)); ("b", JStr ""); ("c", JBool false); ("d", JArr []);
          ("f", JObj [("h", JNum (NInt 0))])]%string.
Proof. reflexivity. Qed.
Print Assumptions C06_falsy_kept.
