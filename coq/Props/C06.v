(* C06 -- end-to-end payload transparency between two endpoints (first part; see NetProofs). *)
From Coq Require Import List String Bool ZArith.
From OV.Model Require Import Json Names NamesProofs Schema Validate Frame Classes Vocab Dispatch Endpoint Net NetProofs Shipped.
From OV.Gen Require Import Schemas16 Schemas201 Classes16 Classes201.
Import ListNotations.
Local Open Scope string_scope.
Local Open Scope list_scope.

(* the object a caller built (asdict, snake_case keys, Nones for unset optionals), written with
   the wire names and Nones dropped, then received and renamed back: the receiver's keywords are
   the caller's object without its Nones -- every key at every depth, every value (falsy ones
   too) unchanged.  Hypothesis: the keys that occur are keys the two name functions undo each
   other on -- discharged for every field name of every payload / data-type class below. *)
Theorem C06_request_transparent :
  forall d, wf_keys d -> (forall k, In k (all_keys d) -> c2s (s2c k) = k) ->
            c2s_keys (remove_nones (s2c_keys d)) = remove_nones d.
Proof. exact (sent_then_received s2c c2s). Qed.
Print Assumptions C06_request_transparent.

(* the handler's result object: Nones dropped, wire names, and back at the caller *)
Theorem C06_result_transparent :
  forall r, wf_keys r -> (forall k, In k (all_keys r) -> c2s (s2c k) = k) ->
            c2s_keys (s2c_keys (remove_nones r)) = remove_nones r.
Proof. exact (received_then_sent s2c c2s). Qed.
Print Assumptions C06_result_transparent.

(* and from the wire's point of view: a payload whose keys are schema property names comes back
   unchanged after snake_case and camelCase again (C10_roundtrip discharges the hypothesis for
   every name of the vocabulary) *)
Theorem C06_wire_transparent :
  forall w, wf_keys w -> (forall k, In k (all_keys w) -> s2c (c2s k) = k) ->
            s2c_keys (c2s_keys w) = w.
Proof. intros w. exact (rekey_roundtrip c2s s2c w). Qed.
Print Assumptions C06_wire_transparent.

(* the hypothesis of the first two theorems holds for every field of every shipped class, with
   exactly two exceptions in one data type (v201 IdTokenInfoType.language_1 / language_2, whose wire
   name language1 maps back to language1: a caller that builds that data type as a dataclass is
   seen by the handler under the key language1; recorded in DESIGN.md) *)
Theorem C06_field_names :
  forallb (fun c => forallb (fun f => String.eqb (c2s (s2c (f_name f))) (f_name f)
                                     || mem (f_name f) ["language_1"; "language_2"]) (c_fields c))
          (calls16 ++ results16 ++ datatypes16 ++ calls201 ++ results201 ++ datatypes201) = true.
Proof. vm_compute. reflexivity. Qed.
Print Assumptions C06_field_names.

(* what is written contains no null, whatever object the caller or the handler built *)
Theorem C06_no_null_obj : forall l, no_null (remove_nones (JObj l)) = true.
Proof. exact no_null_remove_nones_obj. Qed.
Print Assumptions C06_no_null_obj.

(* remove_nones drops nulls only: every other value, falsy ones included, stays *)
Theorem C06_falsy_kept :
  remove_nones (JObj [("a", JNum (NInt 0)); ("b", JStr ""); ("c", JBool false); ("d", JArr []); ("e", JNull);
                      ("f", JObj [("g", JNull); ("h", JNum (NInt 0))])]%string)
  = JObj [("a", JNum (NInt 0)); ("b", JStr ""); ("c", JBool false); ("d", JArr []);
          ("f", JObj [("h", JNum (NInt 0))])]%string.
Proof. reflexivity. Qed.
Print Assumptions C06_falsy_kept.
