(* C13 -- validation verdicts are independent of history, cache, version mix and threads.
   The requests: any (version, direction, action in that version's Action list, payload).
   PARTIAL: data races inside jsonschema / referencing objects shared between real threads, and
   per-thread interpreter state (decimal contexts), cannot be exhibited by the model; the harness
   runs real worker threads and compares verdicts. *)
From Coq Require Import List String Bool.
From OV.Model Require Import Json Schema Validate Cache CacheProofs Shipped.
Import ListNotations.
Local Open Scope string_scope.
Local Open Scope list_scope.

Definition in_version (r : req) : Prop := In (rq_action r) (actions_of (rq_ver r)).

Definition all_key_modes : list (string * mode) :=
  flat_map (fun v => flat_map (fun mt => map (fun a => (cache_key v mt a, mode_of v mt a)) (actions_of v))
                              [MCall; MCallResult]) [V16; V201].

(* on the shipped action lists the cache key determines the float mode (table fact, re-checked) *)
Lemma shipped_keys_functional : keys_functional all_key_modes = true.
Proof. vm_compute. reflexivity. Qed.

Lemma in_all_key_modes r : in_version r -> In (rq_key r, rq_mode r) all_key_modes.
Proof.
  intros H. destruct r as [v mt a p]. unfold in_version, rq_key, rq_mode in *.
  cbn [rq_ver rq_mt rq_action] in *. unfold all_key_modes.
  apply in_flat_map. exists v. split. { destruct v; [left | right; left]; reflexivity. }
  apply in_flat_map. exists mt. split. { destruct mt; [left | right; left]; reflexivity. }
  apply in_map_iff. exists a. split; [reflexivity | exact H].
Qed.

Lemma shipped_key_mode : forall r r', in_version r -> in_version r' -> rq_key r = rq_key r' -> rq_mode r = rq_mode r'.
Proof.
  intros r r' H H' Hk. pose proof (in_all_key_modes r H) as A. pose proof (in_all_key_modes r' H') as B.
  rewrite Hk in A. exact (keys_functional_spec _ shipped_keys_functional _ _ _ A B).
Qed.

(* whatever was validated before -- any versions, actions, directions, payloads, so any state of the
   validator cache -- the verdict of a request is the verdict of validating it alone *)
Theorem C13_history :
  forall h r, Forall in_version h -> in_version r ->
    snd (validate_step shipped (run_cache shipped h) r) = pure_verdict shipped r.
Proof. exact (history_independent shipped in_version shipped_key_mode). Qed.
Print Assumptions C13_history.

(* the same under every interleaving of the lookup / load / store steps of any number of threads *)
Theorem C13_threads :
  forall sched ts, Forall (tstate_ok shipped in_version) ts ->
    Forall (tstate_ok shipped in_version) (snd (run_threads shipped sched [] ts)).
Proof.
  intros sched ts H.
  apply (threads_independent shipped in_version shipped_key_mode sched [] ts); [|exact H].
  intros k sm [].
Qed.
Print Assumptions C13_threads.

(* informational: outside the action list the key does not determine the mode -- a 1.6 CALL named
   "GetCompositeScheduleResponse" shares its cache key with the GetCompositeSchedule reply *)
Example C13_key_clash_outside_action_list :
  cache_key V16 MCall "GetCompositeScheduleResponse" = cache_key V16 MCallResult "GetCompositeSchedule"
  /\ mode_of V16 MCall "GetCompositeScheduleResponse" <> mode_of V16 MCallResult "GetCompositeSchedule".
Proof. split; [vm_compute; reflexivity | intro H; vm_compute in H; discriminate]. Qed.
